#!/usr/bin/env python3
"""tools/gen_selftest.py — (re)builds selftest/index.json: every entry is a compiling edit of /repo that breaks one property;
running it records which rule instances fire today (frozen as the expectation for the thorough tier's self-test)."""
import json, os, re, subprocess, sys, tempfile, shutil, glob, importlib
V = os.path.dirname(os.path.dirname(os.path.abspath(__file__)))
sys.path.insert(0, V)
from rules.engine.run import Ctx
from rules.engine.core import Program, MissingAnchor, TooManyPaths
from rules.engine.extract import get_facts, ExtractError

SED = [  # (id, property, file, regex, replacement, what)
 ('M-C07-implicit-drop', 'C07', 'des/src/net/channel.rs', r'buffer\.enqueue\(msg, via\);', 'let _ = (msg, via);', 'queued message silently dropped instead of enqueued'),
 ('M-C08-swap-slot-ids', 'C08', 'des/src/net/gate.rs', r'endpoint_id: other_conns_pos,', 'endpoint_id: conns_pos,', 'connection records the slot index of the wrong table'),
 ('M-C11-time-ge', 'C11', 'des/src/runtime/limit.rs', r'Self::SimTime\(t\) => time > \*t,', 'Self::SimTime(t) => time >= *t,', 'time limit excludes events at exactly T'),
 ('M-C11-and-lhs-twice', 'C11', 'des/src/runtime/limit.rs', r'lhs\.applies\(itr_count, time\) && rhs\.applies\(itr_count, time\)', 'lhs.applies(itr_count, time) && lhs.applies(itr_count, time)', 'And evaluates the left operand twice'),
 ('M-C11-ordinal', 'C11', 'des/src/runtime/mod.rs', r'self\.limit\.applies\(self\.itr \+ 1, time\)', 'self.limit.applies(self.itr, time)', 'limit asked about the previous ordinal'),
 ('M-C12-depth-ge', 'C12', 'des/src/net/runtime/mod.rs', r'self\.modules\[pos\]\.path\.len\(\) > parent_depth', 'self.modules[pos].path.len() >= parent_depth', 'insertion scan also skips siblings of the parent'),
 ('M-C12-stage-le', 'C12', 'des/src/net/runtime/mod.rs', r'if stage < module\.num_sim_start_stages\(\)', 'if stage <= module.num_sim_start_stages()', 'one start-up call too many'),
 ('M-C13-discard-error', 'C13', 'des/src/net/runtime/events.rs', r'rt\.app\.error\.extend\(module\.handle_message\(message\)\.err\(\)\);', 'let _ = module.handle_message(message);', 'panic error of handle_message discarded'),
 ('M-C13-no-deactivate', 'C13', 'des/src/net/runtime/unwind.rs', r'self\.ctx\.active\.store\(false, Ordering::SeqCst\);', '', 'panicking module stays active'),
 ('M-C14-down-forward', 'C14', 'des/src/net/processing.rs', r'\(0\.\.self\.stack\.items\.len\(\)\)\.rev\(\)', '(0..self.stack.items.len())', 'event_end in stack order instead of reverse'),
 ('M-C15-unaligned-ptr', 'C15', 'des-cqueue/src/stable/alloc.rs', r'Ok\(alloc_start as \*mut u8\)', 'Ok(region.start_addr() as *mut u8)', 'allocator returns the unaligned region start'),
 ('M-C15-read-after-unlink', 'C15', 'des-cqueue/src/stable/linked_list.rs', r'drop\(cur\);\n                    return true;', 'let _payload = std::ptr::read(&cur.value);\n                    drop(cur);\n                    return true;', 'cancel makes a bitwise copy of the payload after unlinking: payload dropped twice'),
 ('M-C15-fit', 'C15', 'des-cqueue/src/stable/alloc.rs', r'if alloc_end > region\.end_addr\(\)', 'if alloc_end >= region.end_addr() + 8', 'fit test admits blocks beyond the region'),
 ('M-C16-unchecked-content', 'C16', 'des/src/net/message/body.rs', r'self\.is::<T>\(\)\.then\(\|\| unsafe \{ &\*self\.data\.cast::<T>\(\) \}\)', 'Some(unsafe { &*self.data.cast::<T>() })', 'try_content reinterprets without the type test'),
 ('M-C04-unseeded-first-rt', 'C04', 'des/src/net/module/ctx/rt.rs', r'builder\s*\.rng_seed\(seed\)\s*\.build\(\)', 'builder.build()', 'first tokio runtime built without rng_seed'),
 ('M-C03-rev-flush', 'C03', 'des/src/net/runtime/ctx.rs', r'ctx\.events\.drain\(\.\.\)', 'ctx.events.drain(..).rev()', 'event buffer flushed in reverse emission order'),
 ('M-C03-list-ge', 'C03', 'des-cqueue/src/stable/linked_list.rs', r'if \(\*cur\)\.time > node\.time', 'if (*cur).time >= node.time', 'ties inserted before existing equal-time nodes (LIFO)'),
 ('M-C09-no-rt-shutdown', 'C09', 'des/src/net/runtime/ctx.rs', r'module\.ctx\.async_ext\.write\(\)\.rt\.shutdown\(\);', '', 'async runtime keeps running after shutdown'),
 ('M-C09-wakeup-unguarded', 'C09', 'des/src/net/runtime/events.rs', r'pub\(crate\) fn async_wakeup\(&self\) -> Result<\(\), PanicError> \{\n        if self\.ctx\.active\.load\(SeqCst\) \{', 'pub(crate) fn async_wakeup(&self) -> Result<(), PanicError> {\n        if true {', 'async wake-ups run for inactive modules'),
 ('M-C05-timeout-delay-first', 'C05', 'des/src/time/timeout.rs', r"// First, try polling the future\n        if let Poll::Ready\(v\) = me\.value\.poll\(cx\) \{\n            return Poll::Ready\(Ok\(v\)\);\n        \}\n\n        let delay = me\.delay;", "let delay = me.delay;", 'Timeout never polls the value before the delay'),
 ('M-C05-sleep-until-late', 'C05', 'des/src/time/sleep.rs', r'pub fn sleep_until\(deadline: SimTime\) -> Sleep \{\n    Sleep::new\(deadline\)', 'pub fn sleep_until(deadline: SimTime) -> Sleep {\n    Sleep::new(deadline + Duration::from_nanos(1))', 'sleep_until waits one tick longer than asked'),
 ('M-C05-interval-first-tick', 'C05', 'des/src/time/interval.rs', r'internal_interval_at\(SimTime::now\(\), period\)', 'internal_interval_at(SimTime::now() + period, period)', 'the first interval tick is delayed by one period'),
 ('M-C05-reset-keeps-deadline', 'C05', 'des/src/time/sleep.rs', r'\*me\.deadline = deadline;', 'if me.handle.is_none() { *me.deadline = deadline; }', 'resetting a registered sleep does not store the new deadline'),
 ('M-C20-no-dissolve', 'C20', 'des/src/net/module/ctx/mod.rs', r'gate\.dissolve_paths\(\);', 'let _ = gate;', 'gate cycles never broken on drop'),
 ('M-C01-no-len-dec', 'C01', 'des-cqueue/src/stable/mod.rs', r'if self\.buckets\[index\]\.cancel\(&handle\) \{\n                self\.len -= 1;\n            \}', 'if self.buckets[index].cancel(&handle) {\n            }', 'len not decremented when a bucket event is cancelled'),
 ('M-C02-clock-after-handler', 'C02', 'des/src/runtime/mod.rs', r'SimTime::set_now\(time\);\n\n        event\.handle\(self\);', 'event.handle(self);\n        SimTime::set_now(time);', 'clock written after the handler ran'),
 ('M-C17-typed-no-test', 'C17', 'des-net-utils/src/props/mod.rs', r'pub fn typed<T: PropType>\(self\) -> Result<Prop<T, false>, Error> \{\n        if self\.is::<T>\(\) \{', 'pub fn typed<T: PropType>(self) -> Result<Prop<T, false>, Error> {\n        if true {', 'typed access without the type test'),
 ('M-C19-edge-start-end-swapped', 'C19', 'des/src/net/topology.rs', r'let raw = EdgeRaw \{\n                        dst,\n                        data: \(\),\n                        start: gate,\n                        end,\n                    \};', 'let raw = EdgeRaw {\n                        dst,\n                        data: (),\n                        start: end.clone(),\n                        end,\n                    };', 'edge labelled with the end gate twice'),
 ('M-C06-no-yield', 'C06', 'des/src/net/runtime/unwind.rs', r'tokio::task::yield_now\(\)\.await;', '', 'harness future ends without yielding'),
 ('M-C06-wakeup-unharnessed', 'C06', 'des/src/net/runtime/events.rs', r'Harness::new\(&self\.ctx\)\.exec\(\|\| \{\}\)\.catch\(\)\?;\n            self\.processing\.borrow_mut\(\)\.incoming_downstream\(\);', 'self.processing.borrow_mut().incoming_downstream();', 'async wake-ups no longer poll the module runtime'),
 ('M-C18-new-unwrap', 'C18', 'des-net-utils/src/ndl/mod.rs', r'\.ok_or_else\(\|\| ErrorKind::UnknownModule\(def\.entry\.clone\(\)\)\.into\(\)\)', '.ok_or_else(|| -> Error { ErrorKind::UnknownModule(def.entry.clone()).into() }).map(|v| { let _ = links.get("").unwrap(); v })', 'a new unwrap in transform'),
]

def scratch():
    S = tempfile.mkdtemp(prefix='scratch-', dir='/tmp')
    subprocess.check_call(['rsync', '-a', '--exclude', 'target', '--exclude', '.git', '/repo/', S + '/'])
    return S

def fire(S, pid):
    d, _ = get_facts(S, 'A')
    P = Program(d, 'A')
    mod = importlib.import_module('rules.%s' % pid)
    ctx = Ctx(pid, 'quick', 0, {'A': P}, {})
    try:
        mod.run(ctx)
    except (MissingAnchor, TooManyPaths) as e:
        ctx.violation('engine:%s' % e, str(e))
    known = {k['key'] for k in json.load(open(os.path.join(V, 'known_findings.json'))).get('known', [])}
    return sorted(v['key'] for v in ctx.violations if v['key'] not in known)

entries = []
# 1. seeded defects (sub-agents)
for d in sorted(glob.glob(os.path.join(V, 'seeded', 'C*'))):
    sid = os.path.basename(d)
    if not os.path.exists(os.path.join(d, 'patch.diff')):
        continue
    entries.append({'id': 'seed-' + sid, 'property': sid[:3], 'kind': 'patch', 'path': 'seeded/%s/patch.diff' % sid, 'what': 'independently seeded defect %s' % sid})
# 2. reverted fixes
for f in sorted(glob.glob(os.path.join(V, 'design', 'planned-fixes', 'F*.patch'))):
    b = os.path.basename(f)
    m = re.match(r'(F\w+)-(C\d\d)-', b)
    entries.append({'id': 'revert-' + m.group(1), 'property': m.group(2), 'kind': 'rpatch', 'path': 'design/planned-fixes/' + b, 'what': 'fix %s reverted' % m.group(1)})
# 3. single-edit mutants
for (mid, pid, file, pat, rep, what) in SED:
    entries.append({'id': mid, 'property': pid, 'kind': 'sed', 'file': file, 'pattern': pat, 'replacement': rep, 'what': what})

def _par(e):
    # parallel mode (--jobs=N): the scratch copies and cached facts of tools/regress.py are used (same edit => same tree hash)
    import multiprocessing as mp
    sys.path.insert(0, os.path.join(V, 'tools'))
    import regress as R
    os.environ['DESFACTS_SLOT'] = str(mp.current_process()._identity[0])
    eid = e['id'][5:] if e['id'].startswith('seed-') else e['id']
    spec = {'path': os.path.join(V, e['path'])} if e['kind'] in ('patch', 'rpatch') else {'file': e['file'], 'pattern': e['pattern'], 'replacement': e['replacement']}
    d = R.scratch(eid, e['kind'], spec)
    if d is None:
        e['status'] = 'does-not-apply'
        return e
    try:
        R.get_facts(d, 'A')
    except ExtractError:
        e['status'] = 'does-not-compile'
        return e
    os.environ.pop('DESFACTS_SLOT', None)
    keys = R.keys_for(d, e['property'])
    if keys is None:
        e['status'] = 'does-not-compile'
        return e
    e['status'] = 'fires' if keys else 'SILENT'
    e['expect_rules'] = sorted({k.split(':')[0] for k in keys})
    e['observed_keys'] = keys[:6]
    return e


_jobs = next((int(a.split('=')[1]) for a in sys.argv[1:] if a.startswith('--jobs=')), 1)
# --only=id,id,... : re-run just these entries (seed ids without the 'seed-' prefix) and merge them into the existing index
_only = next((set(a.split('=')[1].split(',')) for a in sys.argv[1:] if a.startswith('--only=')), None)
if _jobs > 1:
    import multiprocessing as mp
    os.environ.setdefault('DESFACTS_CACHE_MAX', '1300')
    order = {e['id']: i for i, e in enumerate(entries)}
    out = []
    todo = entries
    if _only is not None:
        old = {e['id']: e for e in json.load(open(os.path.join(V, 'selftest', 'index.json')))}
        todo = [e for e in entries if (e['id'][5:] if e['id'].startswith('seed-') else e['id']) in _only or e['id'] not in old]
        out = [old[e['id']] for e in entries if e['id'] in old and e not in todo]
    with mp.Pool(_jobs) as pool:
        for e in pool.imap_unordered(_par, todo):
            print(e['id'], e['status'], e.get('expect_rules'), flush=True)
            out.append(e)
    out.sort(key=lambda e: order[e['id']])
    json.dump(out, open(os.path.join(V, 'selftest', 'index.json'), 'w'), indent=1)
    print('entries', len(out), 'fires', sum(1 for e in out if e.get('status') == 'fires'))
    sys.exit(0)

out = []
for e in entries:
    S = scratch()
    try:
        ok = True
        if e['kind'] in ('patch', 'rpatch'):
            r = subprocess.run(['git', 'apply'] + (['-R'] if e['kind'] == 'rpatch' else []) + [os.path.join(V, e['path'])], cwd=S, capture_output=True, text=True)
            ok = r.returncode == 0
        else:
            p = os.path.join(S, e['file'])
            s = open(p).read()
            n = len(re.findall(e['pattern'], s, flags=re.S))
            ok = n == 1
            if ok:
                open(p, 'w').write(re.sub(e['pattern'], e['replacement'], s, count=1, flags=re.S))
        if not ok:
            e['status'] = 'does-not-apply'
            print(e['id'], 'DOES NOT APPLY'); out.append(e); continue
        try:
            keys = fire(S, e['property'])
        except ExtractError as ex:
            e['status'] = 'does-not-compile'
            print(e['id'], 'DOES NOT COMPILE', str(ex)[-300:]); out.append(e); continue
        e['status'] = 'fires' if keys else 'SILENT'
        e['expect_rules'] = sorted({k.split(':')[0] for k in keys})
        e['observed_keys'] = keys[:6]
        print(e['id'], e['status'], e['expect_rules'], flush=True)
        out.append(e)
    finally:
        shutil.rmtree(S, ignore_errors=True)
json.dump(out, open(os.path.join(V, 'selftest', 'index.json'), 'w'), indent=1)
print('entries', len(out), 'fires', sum(1 for e in out if e.get('status') == 'fires'))

#!/bin/bash
# tools/trypatch.sh [-R] <patch> <Cxx> [Cyy ...] — run checks against a scratch copy of /repo with the patch applied
REV=""
if [ "$1" = "-R" ]; then REV="-R"; shift; fi
PATCH=$(realpath "$1"); shift
S=$(mktemp -d /tmp/scratch-XXXXXX)
rsync -a --exclude target --exclude .git /repo/ "$S/"
( cd "$S" && git init -q . 2>/dev/null; git -C "$S" apply $REV "$PATCH" ) || { echo "PATCH DOES NOT APPLY"; rm -rf "$S"; exit 3; }
rc=0
for p in "$@"; do
  /verif/check "$p" --repo "$S" || rc=1
done
rm -rf "$S"
exit $rc

#!/bin/bash
# tools/confirm_seed.sh <seed-id e.g. C07a> <incoming-dir> <worktree> <results-dir>
# Confirms one seeded change: demo passes without, fails with; full suite passes with the change.
ID="$1"; IN="$2"; WT="$3"; RES="$4"
PATCH="$IN/$ID.patch.diff"; DEMO="$IN/$ID.demo.rs"
mkdir -p "$RES"
cd "$WT" || exit 2
git checkout -q -- . ; git clean -qfd -e target >/dev/null
PLACE=$(head -3 "$DEMO" | grep -o 'place at: *[^ ;]*' | head -1 | sed 's/place at: *//')
[ -z "$PLACE" ] && { echo "{\"id\":\"$ID\",\"error\":\"no place-at line\"}" > "$RES/$ID.json"; exit 1; }
PKG=$(echo "$PLACE" | cut -d/ -f1); NAME=$(basename "$PLACE" .rs)
mkdir -p "$(dirname "$PLACE")"; cp "$DEMO" "$PLACE"
timeout -s KILL 900 cargo test --offline -p "$PKG" --test "$NAME" > "$RES/$ID.demo_without.log" 2>&1; A=$?
git apply "$PATCH" || { echo "{\"id\":\"$ID\",\"error\":\"patch does not apply\"}" > "$RES/$ID.json"; git checkout -q -- .; rm -f "$PLACE"; exit 1; }
timeout -s KILL 900 cargo test --offline -p "$PKG" --test "$NAME" > "$RES/$ID.demo_with.log" 2>&1; B=$?
BFAIL=$(grep -c "test result: FAILED" "$RES/$ID.demo_with.log")
BCOMP=$(grep -c "^error\[E[0-9]*\]\|could not compile\|no test target" "$RES/$ID.demo_with.log")
rm -f "$PLACE"
timeout -s KILL 1500 cargo test --workspace --no-fail-fast --offline > "$RES/$ID.suite_with.log" 2>&1; C=$?
PASSED=$(grep -E "^test result" "$RES/$ID.suite_with.log" | awk '{p+=$4; f+=$6} END {print p" "f}')
git checkout -q -- . ; git clean -qfd -e target >/dev/null
echo "{\"id\":\"$ID\",\"demo_without_exit\":$A,\"demo_with_exit\":$B,\"demo_with_failed_tests\":$BFAIL,\"demo_with_compile_errors\":$BCOMP,\"suite_with_exit\":$C,\"suite_passed_failed\":\"$PASSED\",\"demo_place\":\"$PLACE\",\"demo_cmd\":\"cargo test --offline -p $PKG --test $NAME\"}" > "$RES/$ID.json"
cat "$RES/$ID.json"

#!/usr/bin/env python3
"""tools/firstrun.py [--jobs=N] [--out=file.json] <refactoring id suffix>... — run ALL properties' checks on the selected refactorings
(refactorings/*/<id>.patch.diff whose id ends with one of the suffixes) and record which keys fire: the "first run" record of a new
round, taken before any rule is touched.  Static only."""
import glob, json, os, sys
V = os.path.dirname(os.path.dirname(os.path.abspath(__file__)))
sys.path.insert(0, V); sys.path.insert(0, os.path.join(V, 'tools'))
os.environ.setdefault('DESFACTS_CACHE_MAX', '900')
import regress as R


def _warm(t):
    import multiprocessing as mp
    os.environ['DESFACTS_SLOT'] = str(mp.current_process()._identity[0])
    rid, p = t
    d = R.scratch(rid, 'patch', {'path': p})
    if d is not None:
        try:
            R.get_facts(d, 'A')
        except R.ExtractError:
            pass
    return rid


def _run(t):
    os.environ.pop('DESFACTS_SLOT', None)
    rid, p = t
    props = sorted(os.path.basename(q)[:-3] for q in glob.glob(os.path.join(V, 'rules', 'C??.py')))
    d = R.scratch(rid, 'patch', {'path': p})
    if d is None:
        return rid, {'error': 'does not apply'}
    row = {}
    for pid in props:
        ks = R.keys_for(d, pid)
        if ks is None:
            return rid, {'error': 'does not compile'}
        if ks:
            row[pid] = ks
    return rid, row


def main():
    jobs, out, sel = 8, None, []
    for a in sys.argv[1:]:
        if a.startswith('--jobs='):
            jobs = int(a[7:])
        elif a.startswith('--out='):
            out = a[6:]
        else:
            sel.append(a)
    refac = [(os.path.basename(p).split('.')[0], p) for p in sorted(glob.glob(os.path.join(V, 'refactorings', '*', '*.patch.diff')))
             if any(os.path.basename(p).split('.')[0].endswith(s) for s in sel)]
    import multiprocessing as mp
    R.get_facts('/repo', 'A')
    with mp.Pool(jobs) as pool:
        list(pool.imap_unordered(_warm, refac, chunksize=2))
    res = {}
    with mp.Pool(jobs) as pool:
        for rid, row in pool.imap(_run, refac):
            res[rid] = row
            print(rid, row, flush=True)
    if out:
        json.dump(res, open(out, 'w'), indent=1)
    print('alarming refactorings:', sum(1 for r in res.values() if r), 'of', len(res))


if __name__ == '__main__':
    main()

#!/bin/bash
# tools/import_refac.sh Cxx [outdir-suffix] — collect the refactoring patches a sub-agent left in /tmp/refac/Cxx-out<suffix> and drop its worktree
P=$1; SUF=${2:-}
mkdir -p /verif/refactorings/$P
cp /tmp/refac/$P-out$SUF/$P*.patch.diff /tmp/refac/$P-out$SUF/$P*.notes.md /verif/refactorings/$P/ 2>/dev/null
git -C /repo worktree remove --force /tmp/refac/$P 2>/dev/null
rm -rf /tmp/refac/$P
ls /verif/refactorings/$P | wc -l

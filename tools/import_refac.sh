#!/bin/bash
# tools/import_refac.sh Cxx — collect the refactoring patches a sub-agent left in /tmp/refac/Cxx-out and drop its worktree
P=$1
mkdir -p /verif/refactorings/$P
cp /tmp/refac/$P-out/$P*.patch.diff /tmp/refac/$P-out/$P*.notes.md /verif/refactorings/$P/ 2>/dev/null
git -C /repo worktree remove --force /tmp/refac/$P 2>/dev/null
rm -rf /tmp/refac/$P
ls /verif/refactorings/$P

#!/bin/bash
# tools/import_refac.sh Cxx [outdir] — collect the refactoring patches a sub-agent left in /tmp/refac/<outdir> (default Cxx-out) and drop its worktree
P=$1; OUT=${2:-$P-out}
mkdir -p /verif/refactorings/$P
cp /tmp/refac/$OUT/$P*.patch.diff /tmp/refac/$OUT/$P*.notes.md /verif/refactorings/$P/ 2>/dev/null
git -C /repo worktree remove --force /tmp/refac/$P 2>/dev/null
rm -rf /tmp/refac/$P
ls /verif/refactorings/$P | wc -l

#!/usr/bin/env python3
"""tools/seed_matrix.py <dir-with-patches...> — apply each seed patch to a scratch copy of /repo and run every check on it.
Writes seeded/matrix.json : {seed: {prop: [violation keys]}}"""
import json, os, subprocess, sys, tempfile, shutil, glob
V = os.path.dirname(os.path.dirname(os.path.abspath(__file__)))
sys.path.insert(0, V)
from rules.engine.run import run_property

props = sorted(os.path.basename(p)[:-3] for p in glob.glob(os.path.join(V, 'rules', 'C??.py')))
patches = []
for a in sys.argv[1:]:
    patches += sorted(glob.glob(os.path.join(a, '*.patch.diff'))) if os.path.isdir(a) else [os.path.abspath(a)]
out_path = os.path.join(V, 'seeded', 'matrix.json')
matrix = json.load(open(out_path)) if os.path.exists(out_path) else {}
for p in patches:
    sid = os.path.basename(p).split('.')[0]
    if sid == 'patch':
        sid = os.path.basename(os.path.dirname(p))
    S = tempfile.mkdtemp(prefix='scratch-', dir='/tmp')
    try:
        subprocess.check_call(['rsync', '-a', '--exclude', 'target', '--exclude', '.git', '/repo/', S + '/'])
        r = subprocess.run(['git', 'apply', p], cwd=S, capture_output=True, text=True)
        if r.returncode != 0:
            matrix[sid] = {'error': 'patch does not apply: ' + r.stderr[:200]}
            print(sid, matrix[sid], flush=True)
            continue
        row = {}
        for pid in props:
            try:
                rc, ctx = run_property(pid, 'quick', 0, S, quiet=True)
                if ctx is None:
                    row[pid] = ['ANALYSIS-ERROR']
                else:
                    keys = [v['key'] for v in ctx.violations if v.get('status') != 'known-finding']
                    if keys:
                        row[pid] = keys
            except Exception as e:
                row[pid] = ['CRASH: %r' % e]
        matrix[sid] = row
        print(sid, {k: len(v) for k, v in row.items()}, flush=True)
    finally:
        shutil.rmtree(S, ignore_errors=True)
    json.dump(matrix, open(out_path, 'w'), indent=1, sort_keys=True)

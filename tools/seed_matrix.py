#!/usr/bin/env python3
"""tools/seed_matrix.py <dir-with-patches...> — apply each seed patch to a scratch copy of /repo and run every check on it.
Writes seeded/matrix.json : {seed: {prop: [violation keys]}}"""
import json, os, subprocess, sys, tempfile, shutil, glob
V = os.path.dirname(os.path.dirname(os.path.abspath(__file__)))
sys.path.insert(0, V)
from rules.engine.run import run_property

props = sorted(os.path.basename(p)[:-3] for p in glob.glob(os.path.join(V, 'rules', 'C??.py')))
if '--out' in sys.argv:
    _i = sys.argv.index('--out'); _OUT = os.path.abspath(sys.argv[_i + 1]); del sys.argv[_i:_i + 2]
else:
    _OUT = None
patches = []
for a in sys.argv[1:]:
    patches += [os.path.abspath(x) for x in sorted(glob.glob(os.path.join(a, '*.patch.diff')))] if os.path.isdir(a) else [os.path.abspath(a)]
out_path = _OUT or os.path.join(V, 'seeded', 'matrix.json')
matrix = json.load(open(out_path)) if os.path.exists(out_path) else {}
for p in patches:
    sid = os.path.basename(p).split('.')[0]
    if sid == 'patch':
        sid = os.path.basename(os.path.dirname(p))
    S = tempfile.mkdtemp(prefix='scratch-', dir='/tmp')
    try:
        subprocess.check_call(['rsync', '-a', '--exclude', 'target', '--exclude', '.git', '/repo/', S + '/'])
        r = subprocess.run(['git', 'apply', p], cwd=S, capture_output=True, text=True)
        if r.returncode != 0:
            matrix[sid] = {'error': 'patch does not apply: ' + r.stderr[:200]}
            print(sid, matrix[sid], flush=True)
            continue
        row = {}
        import importlib
        from rules.engine.run import Ctx
        from rules.engine.core import Program, MissingAnchor, TooManyPaths
        from rules.engine.extract import get_facts, ExtractError
        try:
            d, _ = get_facts(S, 'A')
            P = Program(d, 'A')
        except ExtractError as e:
            matrix[sid] = {'error': 'does not compile: ' + str(e)[-300:]}
            print(sid, 'ANALYSIS ERROR', flush=True)
            continue
        known = {k['key'] for k in json.load(open(os.path.join(V, 'known_findings.json'))).get('known', [])}
        for pid in props:
            mod = importlib.import_module('rules.%s' % pid)
            ctx = Ctx(pid, 'quick', 0, {'A': P}, {})
            try:
                mod.run(ctx)
            except (MissingAnchor, TooManyPaths) as e:
                ctx.violation('engine:%s' % e, str(e))
            except Exception as e:
                row[pid] = ['CRASH: %r' % e]
                continue
            keys = [v['key'] for v in ctx.violations if v['key'] not in known]
            if keys:
                row[pid] = keys
        matrix[sid] = row
        print(sid, {k: len(v) for k, v in row.items()}, flush=True)
    finally:
        shutil.rmtree(S, ignore_errors=True)
    json.dump(matrix, open(out_path, 'w'), indent=1, sort_keys=True)

#!/bin/bash
# tools/trymut.sh <file-relative-to-repo> <python-regex> <replacement> <Cxx> [...] — run checks on a scratch copy with one textual edit
F="$1"; PAT="$2"; REP="$3"; shift 3
S=$(mktemp -d /tmp/scratch-XXXXXX)
rsync -a --exclude target --exclude .git /repo/ "$S/"
python3 - "$S/$F" "$PAT" "$REP" <<'PY' || { rm -rf "$S"; exit 3; }
import re,sys
p,pat,rep=sys.argv[1:4]
s=open(p).read()
n=len(re.findall(pat,s,flags=re.S))
if n!=1:
    print("MUTATION PATTERN MATCHES %d TIMES"%n); sys.exit(1)
open(p,'w').write(re.sub(pat,rep,s,count=1,flags=re.S))
PY
rc=0
for p in "$@"; do /verif/check "$p" --repo "$S" || rc=1; done
rm -rf "$S"
exit $rc

#!/usr/bin/env python3
"""tools/regress_touching.py <Cxx> <path-fragment> [--jobs=N] — the two-way regression of tools/regress.py for one property, restricted to
the refactorings whose patch touches <path-fragment> (e.g. des-cqueue/): a refactoring that leaves every file the property's rules read
untouched yields the pinned tree's facts for them.  All breaking edits of the property are run.  Static only."""
import glob, json, os, sys
V = os.path.dirname(os.path.dirname(os.path.abspath(__file__)))
sys.path.insert(0, V); sys.path.insert(0, os.path.join(V, 'tools'))
os.environ.setdefault('DESFACTS_CACHE_MAX', '900')
import regress as R

pid, frag = sys.argv[1], sys.argv[2]
jobs = next((int(a.split('=')[1]) for a in sys.argv[1:] if a.startswith('--jobs=')), 4)


def _run(t):
    import multiprocessing as mp
    os.environ['DESFACTS_SLOT'] = str(mp.current_process()._identity[0])
    eid, kind, spec, want = t
    d = R.scratch(eid, kind, spec)
    if d is None:
        return eid, want, 'does-not-apply'
    try:
        R.get_facts(d, 'A')
    except R.ExtractError:
        return eid, want, 'does-not-compile'
    os.environ.pop('DESFACTS_SLOT', None)
    ks = R.keys_for(d, pid)
    return eid, want, ks


if __name__ == '__main__':
    import multiprocessing as mp
    work = []
    for e in json.load(open(os.path.join(V, 'selftest', 'index.json'))):
        if e['property'] != pid or e['id'].startswith('seed-'):
            continue
        if e['kind'] in ('patch', 'rpatch'):
            work.append((e['id'], e['kind'], {'path': os.path.join(V, e['path'])}, 'fire'))
        else:
            work.append((e['id'], 'sed', {'file': e['file'], 'pattern': e['pattern'], 'replacement': e['replacement']}, 'fire'))
    for p in sorted(glob.glob(os.path.join(V, 'seeded', pid + '?', 'patch.diff'))):
        work.append((os.path.basename(os.path.dirname(p)), 'patch', {'path': p}, 'fire'))
    for p in sorted(glob.glob(os.path.join(V, 'refactorings', '*', '*.patch.diff'))):
        if frag in open(p).read():
            work.append((os.path.basename(p).split('.')[0], 'patch', {'path': p}, 'silent'))
    miss = json.load(open(os.path.join(V, 'seeded', 'expected_misses.json'))) if os.path.exists(os.path.join(V, 'seeded', 'expected_misses.json')) else {}
    alarms = json.load(open(os.path.join(V, 'refactorings', 'expected_alarms.json')))
    bad = 0
    R.get_facts('/repo', 'A')
    with mp.Pool(jobs) as pool:
        for eid, want, ks in pool.imap_unordered(_run, work):
            if isinstance(ks, str):
                print(eid, want, ks.upper()); bad += 1
            elif want == 'fire' and not ks:
                print(eid, 'MISS-EXPECTED' if eid in miss else 'SILENT (should fire)'); bad += eid not in miss
            elif want == 'silent' and ks:
                print(eid, 'ALARM-EXPECTED' if eid in alarms else 'FALSE ALARM', ks[:3]); bad += eid not in alarms
    print('regress_touching %s %s: %d trees, %d problem(s)' % (pid, frag, len(work), bad))
    sys.exit(1 if bad else 0)

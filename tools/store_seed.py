#!/usr/bin/env python3
"""tools/store_seed.py <incoming-dir> <results-dir> <seed-id>... — store a CONFIRMED seeded change as seeded/<id>/
(patch.diff, demo.rs, notes.md, meta.json).  A seed is stored only if tools/confirm_seed.sh recorded: demo passes without the
change, demo fails (test failure, not a compile error) with it, and the full workspace suite passes with it."""
import json, os, shutil, sys
V = os.path.dirname(os.path.dirname(os.path.abspath(__file__)))
IN, RES = sys.argv[1], sys.argv[2]
titles = {json.loads(l)['id']: json.loads(l)['title'] for l in open(os.path.join(V, 'properties.jsonl'))}
head = os.popen('git -C /repo rev-parse --short HEAD').read().strip()
for sid in sys.argv[3:]:
    r = json.load(open(os.path.join(RES, sid + '.json')))
    ok = (r.get('demo_without_exit') == 0 and r.get('demo_with_exit') not in (0, None) and r.get('demo_with_failed_tests', 0) >= 1
          and r.get('demo_with_compile_errors', 1) == 0 and r.get('suite_with_exit') == 0)
    if not ok:
        print(sid, 'NOT CONFIRMED', r)
        continue
    d = os.path.join(V, 'seeded', sid)
    os.makedirs(d, exist_ok=True)
    shutil.copy(os.path.join(IN, sid + '.patch.diff'), os.path.join(d, 'patch.diff'))
    shutil.copy(os.path.join(IN, sid + '.demo.rs'), os.path.join(d, 'demo.rs'))
    if os.path.exists(os.path.join(IN, sid + '.notes.md')):
        shutil.copy(os.path.join(IN, sid + '.notes.md'), os.path.join(d, 'notes.md'))
    meta = {
        'seed': sid, 'property': sid[:3], 'property_title': titles[sid[:3]],
        'origin': 'independent sub-agent given only the property text and a scratch worktree of /repo (no access to /verif)',
        'base_commit': head + ' (/repo HEAD incl. fix commits)',
        'needs_to_manifest': 'see notes.md (written by the sub-agent): the concrete failing scenario and what it needs',
        'confirmed_by_me': {
            'worktree': 'scratch git worktree of /repo outside /repo and /verif (removed afterwards)',
            'demo_place': r['demo_place'], 'demo_cmd': r['demo_cmd'],
            'demo_without_change': 'exit 0 (pass)',
            'demo_with_change': 'exit %s, test result FAILED' % r['demo_with_exit'],
            'full_suite_with_change': 'cargo test --workspace --no-fail-fast --offline: exit 0, passed/failed ' + r['suite_passed_failed'],
        },
    }
    json.dump(meta, open(os.path.join(d, 'meta.json'), 'w'), indent=1)
    print(sid, 'stored')

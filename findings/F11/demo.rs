// place at: des/tests/f11_queued_leak.rs ; run: cargo test --offline -p des --test f11_queued_leak
// Fails before the fix commit 'fix: Gate::dissolve_paths releases packets still queued in the channel' (2 of 4 payloads dropped).
use des::prelude::*;
use std::sync::{atomic::{AtomicUsize, Ordering}, Arc};

static DROPS: AtomicUsize = AtomicUsize::new(0);
static MADE: AtomicUsize = AtomicUsize::new(0);

#[derive(Debug, Clone)]
struct Token(Arc<()>);
impl Token { fn new() -> Self { MADE.fetch_add(1, Ordering::SeqCst); Token(Arc::new(())) } }
impl Drop for Token { fn drop(&mut self) { DROPS.fetch_add(1, Ordering::SeqCst); } }
impl MessageBody for Token { fn byte_len(&self) -> usize { 512 } }

struct Sender;
impl Module for Sender {
    fn at_sim_start(&mut self, _: usize) {
        for _ in 0..4 { send(Message::default().with_content(Token::new()), "out"); }
    }
}
struct Sink;
impl Module for Sink { fn handle_message(&mut self, _m: Message) {} }

#[test]
fn queued_messages_are_released_when_the_sim_is_dropped() {
    let mut sim = Sim::new(());
    sim.node("a", Sender);
    sim.node("b", Sink);
    let ch = Channel::new(ChannelMetrics {
        bitrate: 1000, latency: Duration::from_millis(100), jitter: Duration::ZERO,
        drop_behaviour: ChannelDropBehaviour::Queue(None),
    });
    sim.gate("a", "out").connect(sim.gate("b", "in"), Some(ch));
    // stop after the first delivery: three messages are still in the channel queue / in flight
    let rt = Builder::seeded(1).max_itr(2).build(sim.freeze());
    let res = rt.run();
    drop(res);
    assert_eq!(MADE.load(Ordering::SeqCst), 4);
    assert_eq!(DROPS.load(Ordering::SeqCst), 4, "every message payload must be dropped with the simulation");
}

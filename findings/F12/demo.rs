// place at: des/tests/f12_budget.rs ; run: cargo test --offline -p des --test f12_budget -- --nocapture
// KNOWN FINDING F12 (C06): fails on the current tree — with 61 sleepers + 1 other task, one sleeper resumes at 11 s instead of 1 s.
use des::prelude::*;
use std::sync::{Arc, Mutex};

struct Many { log: Arc<Mutex<Vec<f64>>>, n: usize }
impl Module for Many {
    fn at_sim_start(&mut self, _: usize) {
        for _ in 0..self.n {
            let log = self.log.clone();
            tokio::spawn(async move {
                des::time::sleep(Duration::from_secs(1)).await;
                log.lock().unwrap().push(SimTime::now().as_secs_f64());
            });
        }
        // a later, unrelated timer keeps the simulation alive
        tokio::spawn(async move { des::time::sleep(Duration::from_secs(10)).await; });
    }
}

fn run(n: usize) -> Vec<f64> {
    let log = Arc::new(Mutex::new(Vec::new()));
    let mut sim = Sim::new(());
    sim.node("m", Many { log: log.clone(), n });
    let rt = Builder::seeded(1).max_time(100.0.into()).build(sim.freeze());
    let _ = rt.run();
    let v = log.lock().unwrap().clone();
    v
}

#[test]
fn all_sleepers_resume_at_their_deadline() {
    for n in [10usize, 50, 61, 62, 100, 500] {
        let v = run(n);
        let late = v.iter().filter(|t| **t != 1.0).count();
        println!("n={n}: resumed {} of {n}, late (not at 1s): {late}, max time {:?}", v.len(), v.iter().cloned().fold(0.0, f64::max));
        assert_eq!(v.len(), n, "n={n}: every task must resume");
        assert_eq!(late, 0, "n={n}: every task must observe SimTime 1s after its sleep");
    }
}

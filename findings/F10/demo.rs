// place at: des/tests/f10_long_chain.rs ; run: cargo test --offline -p des --test f10_long_chain
// Fails on the tree before the fix commit "fix: Topology::from_modules follows a gate chain to its end" (edge leads to "t15").
use des::prelude::*;
struct M;
impl Module for M {}

#[test]
fn long_chain_topology_edge_reaches_far_end() {
    let mut sim = Sim::new(());
    sim.node("src", M);
    sim.node("dst", M);
    let n = 19;
    for i in 0..n { sim.node(format!("t{i}"), M); }
    let mut prev = sim.gate("src", "out");
    for i in 0..n {
        let g = sim.gate(format!("t{i}").as_str(), "g");
        prev.clone().connect(g.clone(), None);
        prev = g;
    }
    let last = sim.gate("dst", "in");
    prev.connect(last.clone(), None);
    let topo = sim.globals().topology();
    let e: Vec<_> = topo.edges_for("src").collect();
    assert_eq!(e.len(), 1);
    assert_eq!(e[0].to.gate().owner().path().as_str(), "dst", "edge must lead to the module owning the far end of the chain");
    let sp = Topology::spanned(sim.get(&"src".into()).unwrap());
    let e2: Vec<_> = sp.edges_for("src").collect();
    assert_eq!(e2[0].to.gate().owner().path().as_str(), "dst");
}
